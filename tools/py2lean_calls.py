"""Calls, subscripts and comprehensions of the Python-lite subset (mixin of tools/py2lean.py)."""
import ast

from py2lean_types import (Unsupported, Impure, TInt, TBool, TStr, TNone, TRange, TErased, TList, TOpt, TTuple,
                           TDict, TObj, TAbs, TExc, TUnion, TVar, THet, TBuilder, TEffect, TEffectClass, TMaybe, INT, BOOL, STR, NONE, RANGE, ERASED,
                           resolve, unify, join, coerce, proj, iter_elem)
from py2lean_expr import src, indent, TyRef, lstr


def const_int(node):
    if node is None:
        return None
    if isinstance(node, ast.Constant) and isinstance(node.value, int) and not isinstance(node.value, bool):
        return node.value
    if isinstance(node, ast.UnaryOp) and isinstance(node.op, ast.USub):
        v = const_int(node.operand)
        return -v if v is not None else None
    return None


class CallMixin:
    # ------------------------------------------------------------ subscripts
    def e_Subscript(self, e, env, k):
        if isinstance(e.slice, ast.Slice):
            return self.slice_expr(e, env, k)

        def fin(vs):
            (c, t), (i, ti) = vs
            t = resolve(t)
            if isinstance(t, THet):
                idx = const_int(e.slice)
                n = len(t.tails)
                if idx is not None and -n <= idx < 0:
                    return k(proj(c, n + 1 + idx, n + 1), t.tails[n + idx])
                raise Unsupported("subscript of a record-like list: " + src(e))
            if isinstance(t, TTuple):
                if isinstance(e.slice, ast.Constant) and isinstance(e.slice.value, int) \
                        and -len(t.elems) <= e.slice.value < len(t.elems):
                    n = len(t.elems)
                    idx = e.slice.value % n
                    return k(proj(c, idx, n), t.elems[idx])
                el, view = iter_elem(t)
                return self.as_int(i, ti, lambda iv: self.bind("Py.index {} {}".format(view(c), iv), el, k, "x"))
            if isinstance(t, TDict):
                d, key = self.dict_probe(c, t, i, ti)
                return self.bind("Py.dictGet {} {}".format(d, key), t.v, k, "x")
            if isinstance(t, TRange):
                return self.as_int(i, ti, lambda iv: self.bind("Py.Range.get {} {}".format(c, iv), INT, k, "x"))
            if isinstance(t, TObj):
                fn = self.reg.method(self.reg.classes[t.cls], "__getitem__")
                if fn is None:
                    raise Unsupported("subscript of an object without a translated __getitem__")
                return self.emit_call(fn, [c, coerce(i, ti, fn.params[0][1])], k)
            if isinstance(t, (TList, TOpt, TUnion)):
                return self.as_list(c, t, lambda l, el: self.as_int(i, ti, lambda iv: self.bind(
                    "Py.index {} {}".format(l, iv), el, k, "x")))
            raise Unsupported("subscript of " + t.lean())
        return self.exprs([e.value, e.slice], env, fin)

    def slice_expr(self, e, env, k):
        s = e.slice

        def with_list(c, t):
            t = resolve(t)
            if isinstance(t, THet):
                n = len(t.tails)
                if s.lower is None and s.step is None and const_int(s.upper) == -n:
                    return k(proj(c, 0, n + 1), TList(t.elem))
                raise Unsupported("slice of a record-like list: " + src(e))

            def go(l, el):
                if s.step is not None:
                    if s.lower is None and s.upper is None and isinstance(s.step, ast.UnaryOp) \
                            and isinstance(s.step.op, ast.USub) and isinstance(s.step.operand, ast.Constant) \
                            and s.step.operand.value == 1:
                        return k("(List.reverse {})".format(l), TList(el))
                    raise Unsupported("slice with a step: " + src(e))

                def bound(b, cont):
                    if b is None:
                        return cont("none")
                    return self.expr(b, env, lambda c2, t2: self.as_int(c2, t2, lambda v: cont("(some {})".format(v))))
                return bound(s.lower, lambda lo: bound(s.upper, lambda hi: k(
                    "(Py.slice {} {} {})".format(l, lo, hi), TList(el))))
            return self.as_list(c, t, go)
        return self.expr(e.value, env, with_list)

    # ------------------------------------------------------------ comprehensions
    def e_ListComp(self, e, env, k):
        return self.comprehension(e.elt, e.generators, env, k)

    def e_DictComp(self, e, env, k):
        # {key: value for x in it}: the pairs in order, later entries overwrite earlier ones with the same key
        pair = ast.Tuple(elts=[e.key, e.value], ctx=ast.Load())
        ast.copy_location(pair, e)

        def fin(c, t):
            t = resolve(t)
            te = resolve(t.elem)
            if not (isinstance(t, TList) and isinstance(te, TTuple) and len(te.elems) == 2):
                raise Unsupported("dictionary comprehension " + src(e))
            return k("(Py.dictOfPairs {})".format(c), TDict(te.elems[0], te.elems[1]))
        return self.comprehension(pair, e.generators, env, fin)

    def e_GeneratorExp(self, e, env, k):
        # a generator is the list of what it yields (laziness is not modelled: see notes/translator.md)
        return self.comprehension(e.elt, e.generators, env, k)

    def bind_target(self, target, var, ty, env):
        """(new env, list of let-lines) for `target` bound to the Lean variable `var : ty`"""
        ty = resolve(ty)
        if isinstance(target, ast.Name):
            nm = self.lname(target.id)
            env2 = dict(env)
            env2[target.id] = (nm, ty)
            return env2, ([] if nm == var else ["let {} := {}".format(nm, var)])
        if isinstance(target, (ast.Tuple, ast.List)):
            if not isinstance(ty, TTuple) or len(ty.elems) != len(target.elts):
                raise Unsupported("unpacking {} into {}".format(ty.lean(), src(target)))
            lets = []
            env2 = dict(env)
            n = len(ty.elems)
            for i, tg in enumerate(target.elts):
                env2, more = self.bind_target(tg, proj(var, i, n), ty.elems[i], env2)
                if isinstance(tg, ast.Name):
                    more = ["let {} := {}".format(self.lname(tg.id), proj(var, i, n))]
                lets += more
            return env2, lets
        raise Unsupported("target " + src(target))

    def comprehension(self, elt, gens, env, k):
        """[elt for x in it if c ...]: map / filter / flatMap (mapM when the element can raise)"""
        g = gens[0]
        if g.is_async:
            raise Unsupported("async comprehension")

        def with_iter(c, t):
            def go(l, el):
                var = self.fresh("z")
                env2, lets = self.bind_target(g.target, var, el, env)
                letcode = "".join(x + "; " for x in lets)
                src_list = l
                for cnd in g.ifs:
                    p = self.pure_prop_or_unsupported(cnd, env2)
                    src_list = "(List.filter (fun ({} : {}) => {}decide {}) {})".format(var, resolve(el).lean(), letcode, p, src_list)
                if len(gens) > 1:
                    # nested generators: flatMap (inner comprehension must be pure)
                    try:
                        saved = self.pure_mode
                        self.pure_mode = True
                        box = []
                        self.comprehension(elt, gens[1:], env2, lambda c2, t2: box.append((c2, t2)) or "")
                    finally:
                        self.pure_mode = saved
                    ic, it = box[0]
                    return k("(List.flatMap (fun ({} : {}) => {}{}) {})".format(var, resolve(el).lean(), letcode, ic, src_list), it)
                try:
                    ec, et = self.pure_expr(elt, env2)
                    return k("(List.map (fun ({} : {}) => {}{}) {})".format(var, resolve(el).lean(), letcode, ec, src_list), TList(et))
                except Impure:
                    if self.pure_mode:
                        raise
                box = []

                def kk(c2, t2):
                    box.append(t2)
                    return "Except.ok {}".format(c2)
                body = self.expr(elt, env2, kk)
                return self.bind("List.mapM (fun ({} : {}) => {}{}) {}".format(var, resolve(el).lean(), letcode, body, src_list),
                                 TList(box[0]), k, "l")
            return self.as_list(c, t, go)
        return self.expr(g.iter, env, with_iter)

    def pure_prop_or_unsupported(self, e, env):
        try:
            return self.pure_prop(e, env)
        except Impure:
            raise Unsupported("raising condition inside a comprehension: " + src(e))

    # ------------------------------------------------------------ calls
    def e_Call(self, e, env, k):
        f = e.func
        if isinstance(f, ast.Name):
            m = getattr(self, "b_" + f.id, None)
            if m is not None:
                return m(e, env, k)
            if f.id in env and isinstance(resolve(env[f.id][1]), TMaybe) \
                    and isinstance(resolve(resolve(env[f.id][1]).elem), TObj):
                # an object assigned on some paths only: reading it may be UnboundLocalError
                def with_obj(oc, ot):
                    fn = self.reg.method(self.reg.classes[resolve(ot).cls], "__call__")
                    if fn is None:
                        raise Unsupported("__call__ of {} is not translated".format(resolve(ot).cls))
                    return self.call_function(fn, oc, e, env, k)
                return self.e_Name(f, env, with_obj)
            if f.id in env and isinstance(resolve(env[f.id][1]), TObj):     # obj(…) is obj.__call__(…)
                oc, ot = env[f.id]
                fn = self.reg.method(self.reg.classes[resolve(ot).cls], "__call__")
                if fn is None:
                    raise Unsupported("__call__ of {} is not translated".format(resolve(ot).cls))
                return self.call_function(fn, oc, e, env, k)
            if f.id in self.local_defs:                     # a local generator: the list of what it yields
                return self.inline_local_generator(self.local_defs[f.id], e, env, k)
            if f.id in self.reg.abs_ctors:                  # an interface object made by hand-written glue
                lean, ptys, rty, raises = self.reg.abs_ctors[f.id]
                self.args_no_kw(e, len(ptys))

                def fin_a(vs):
                    code = " ".join([lean] + [coerce(c, t, pt) for (c, t), pt in zip(vs, ptys)])
                    if raises:
                        return self.bind(code, rty, k, "g")
                    return k("(" + code + ")", rty)
                return self.exprs(list(e.args), env, fin_a)
            if f.id in self.reg.builders:                   # an object that is built by commands: start its log
                b = self.reg.builders[f.id]
                self.args_no_kw(e, len(b["ctor"]))
                keep = [(a, t) for a, t in zip(e.args, b["ctor"]) if not isinstance(t, TErased)]
                bt = TBuilder(f.id, [t for _, t in keep], b["command"], b["args"])

                def fin_b(vs):
                    cs = [coerce(c, t, kt) for (c, t), (_, kt) in zip(vs, keep)]
                    ctor = cs[0] if len(cs) == 1 else "(" + ", ".join(cs) + ")"
                    return k("({}, ([] : List {}))".format(ctor, bt.cmd_ty().lean()), bt)
                return self.exprs([a for a, _ in keep], env, fin_b)
            if f.id in self.reg.classes:                    # constructor of a translated class
                return self.call_function(self.reg.init_of(f.id), None, e, env, k)
            fn = self.reg.functions.get(f.id)
            if fn is not None:
                return self.call_function(fn, None, e, env, k)
            raise Unsupported("call of " + f.id)
        if isinstance(f, ast.Attribute) and src(f) in self.reg.abs_ctors:     # Class.constructor(…): hand-written glue
            lean, ptys, rty, raises = self.reg.abs_ctors[src(f)]
            self.args_no_kw(e, len(ptys))

            def fin_ac(vs):
                code = " ".join([lean] + [coerce(c, t, pt) for (c, t), pt in zip(vs, ptys)])
                if raises:
                    return self.bind(code, rty, k, "g")
                return k("(" + code + ")", rty)
            return self.exprs(list(e.args), env, fin_ac)
        if isinstance(f, ast.Attribute):
            return self.method_call(e, env, k)
        raise Unsupported("call " + src(e))

    def inline_local_generator(self, fdef, e, env, k):
        """`_gen(w)` where `def _gen(vertex): yield from A; yield from B`: A ++ B with `vertex` bound to `w`
        (free variables of the body are read where the function is called: sound when they are not re-assigned
        between definition and call — checked: the call must be in the statement right after the definition's
        block, i.e. the names are looked up in the current environment)"""
        params = [a.arg for a in fdef.args.args]
        self.args_no_kw(e, len(params))

        def with_args(vs):
            env2 = dict(env)
            lets = []
            for p, (c, t) in zip(params, vs):
                nm = self.lname(p)
                env2[p] = (nm, t)
                if nm != c:
                    lets.append("let {} := {}\n".format(nm, c))
            stmts = [st.value for st in fdef.body if not isinstance(st.value, ast.Constant)]

            def go(i, acc, acc_t):
                if i == len(stmts):
                    if acc is None:
                        tv = TVar()
                        return k("([] : List {})".format(TyRef(tv)), TList(tv))
                    return k(acc, acc_t)
                y = stmts[i]
                if isinstance(y, ast.YieldFrom):
                    def fin_l(c, t):
                        return self.as_list(c, t, lambda l, el: step(l, TList(el)))
                    def step(l, tl):
                        if acc is None:
                            return go(i + 1, l, tl)
                        j = join(acc_t, tl)
                        if j is None:
                            raise Unsupported("local generator yields values of different types")
                        return go(i + 1, "({} ++ {})".format(coerce(acc, acc_t, j), coerce(l, tl, j)), j)
                    return self.expr(y.value, env2, fin_l)
                if y.value is None:
                    raise Unsupported("bare yield")

                def fin_e(c, t):
                    if acc is None:
                        return go(i + 1, "[{}]".format(c), TList(t))
                    j = join(resolve(acc_t).elem, t)
                    if j is None:
                        raise Unsupported("local generator yields values of different types")
                    return go(i + 1, "({} ++ [{}])".format(coerce(acc, acc_t, TList(j)), coerce(c, t, j)), TList(j))
                return self.expr(y.value, env2, fin_e)
            return "".join(lets) + go(0, None, None)
        return self.exprs(list(e.args), env, with_args)

    def args_no_kw(self, e, n=None, kws=()):
        if any(kw.arg not in kws for kw in e.keywords) or any(isinstance(a, ast.Starred) for a in e.args):
            raise Unsupported("call form " + src(e))
        if n is not None and len(e.args) not in (n if isinstance(n, tuple) else (n,)):
            raise Unsupported("arity " + src(e))

    def b_len(self, e, env, k):
        self.args_no_kw(e, 1)

        def fin(c, t):
            t = resolve(t)
            if isinstance(t, TRange):
                return k("(Py.Range.len {})".format(c), INT)
            if isinstance(t, TObj):
                fn = self.reg.method(self.reg.classes[t.cls], "__len__")
                if fn is None:
                    raise Unsupported("len of an object without __len__")
                return self.emit_call(fn, [c], k)
            if isinstance(t, TTuple):
                return k("({} : Int)".format(len(t.elems)), INT)
            if isinstance(t, TDict):
                return k("(Py.len {})".format(c), INT)
            return self.as_list(c, t, lambda l, el: k("(Py.len {})".format(l), INT))
        return self.expr(e.args[0], env, fin)

    def b_bool(self, e, env, k):
        self.args_no_kw(e, 1)

        def fin(c, t):
            t = resolve(t)
            if isinstance(t, TBool):
                return k(c, BOOL)
            if isinstance(t, TInt):
                return k("(decide ({} ≠ (0 : Int)))".format(c), BOOL)
            raise Unsupported("bool of " + t.lean())
        return self.expr(e.args[0], env, fin)

    def b_abs(self, e, env, k):
        self.args_no_kw(e, 1)
        return self.expr(e.args[0], env, lambda c, t: self.as_int(c, t, lambda v: k("(Py.abs {})".format(v), INT)))

    def b_int(self, e, env, k):
        self.args_no_kw(e, 1)
        a = e.args[0]
        # idiom: int(ceil(log(m, 2)))  — the only float computation of the subset (see notes/translator.md)
        if isinstance(a, ast.Call) and src(a.func) in ("ceil", "math.ceil") and len(a.args) == 1 \
                and isinstance(a.args[0], ast.Call) and src(a.args[0].func) in ("log", "math.log") \
                and len(a.args[0].args) == 2 and isinstance(a.args[0].args[1], ast.Constant) \
                and a.args[0].args[1].value == 2:
            return self.expr(a.args[0].args[0], env, lambda c, t: self.as_int(c, t, lambda v: self.bind(
                "Py.ceilLog2 {}".format(v), INT, k, "b")))
        # idiom: int(sqrt(e)) — a float computation that stays ABSTRACT: the function `float_isqrt` is a parameter of the
        # generated definition (the theorems instantiate it with the exact integer square root, the self-test with CPython's)
        if isinstance(a, ast.Call) and src(a.func) in ("sqrt", "math.sqrt") and len(a.args) == 1 and not a.keywords:
            ob = "float_isqrt"
            if not any(n == ob for n, _, _ in self.observers):
                from py2lean_types import TFun
                self.observers.append((ob, TFun([INT], INT, True), ("call", "int(sqrt(·))", None)))
            return self.expr(a.args[0], env, lambda c, t: self.as_int(c, t, lambda v: self.bind(
                "{} {}".format(ob, v), INT, k, "z")))
        return self.expr(a, env, lambda c, t: self.as_int(c, t, lambda v: k(v, INT)))

    def b_sum(self, e, env, k):
        self.args_no_kw(e, 1)
        return self.expr(e.args[0], env, lambda c, t: self.as_list(c, t, lambda l, el: k("(Py.sum {})".format(l), INT)
                                                                    if unify(el, INT) else self.unsup("sum of non-integers")))

    def unsup(self, msg):
        raise Unsupported(msg)

    def b_range(self, e, env, k):
        self.args_no_kw(e, (1, 2, 3))

        def fin(vs):
            def ints(i, acc):
                if i == len(vs):
                    if len(acc) == 1:
                        return k("(Py.Range.mk 0 {})".format(acc[0]), RANGE)
                    if len(acc) == 2:
                        return k("(Py.Range.mk {} {})".format(acc[0], acc[1]), RANGE)
                    step = e.args[2]
                    if isinstance(step, ast.UnaryOp) and isinstance(step.op, ast.USub):
                        step = step.operand
                    if isinstance(step, ast.Constant) and isinstance(step.value, int) and step.value != 0:
                        return k("(Py.rangeStep {} {} {})".format(*acc), TList(INT))
                    return self.bind("Py.range3 {} {} {}".format(*acc), TList(INT), k, "r")
                return self.as_int(vs[i][0], vs[i][1], lambda v: ints(i + 1, acc + [v]))
            return ints(0, [])
        return self.exprs(e.args, env, fin)

    def b_zip(self, e, env, k):
        self.args_no_kw(e, 2)

        def fin(vs):
            (a, ta), (b, tb) = vs
            return self.as_list(a, ta, lambda la, ea: self.as_list(b, tb, lambda lb, eb: k(
                "(List.zip {} {})".format(la, lb), TList(TTuple([ea, eb])))))
        return self.exprs(e.args, env, fin)

    def b_list(self, e, env, k):
        self.args_no_kw(e, (0, 1))
        if not e.args:
            tv = TVar()
            return k("([] : List {})".format(TyRef(tv)), TList(tv))
        return self.expr(e.args[0], env, lambda c, t: self.as_list(c, t, lambda l, el: k(l, TList(el))))

    b_tuple = b_list
    b_iter = b_list

    def b_sorted(self, e, env, k):
        self.args_no_kw(e, 1)
        return self.expr(e.args[0], env, lambda c, t: self.as_list(
            c, t, lambda l, el: k("(Py.sorted {})".format(l), TList(INT)) if unify(el, INT) else self.unsup("sorted of non-integers")))

    def b_reversed(self, e, env, k):
        self.args_no_kw(e, 1)
        return self.expr(e.args[0], env, lambda c, t: self.as_list(c, t, lambda l, el: k("(List.reverse {})".format(l), TList(el))))

    def b_next(self, e, env, k):
        self.args_no_kw(e, 1)
        return self.expr(e.args[0], env, lambda c, t: self.as_list(c, t, lambda l, el: self.bind(
            "Py.next {}".format(l), el, k, "x")))

    def minmax(self, which, e, env, k):
        self.args_no_kw(e, 2)

        def fin(vs):
            (a, ta), (b, tb) = vs
            return self.as_int(a, ta, lambda x: self.as_int(b, tb, lambda y: k("(Py.{} {} {})".format(which, x, y), INT)))
        return self.exprs(e.args, env, fin)

    def b_min(self, e, env, k):
        return self.minmax("min2", e, env, k)

    def b_max(self, e, env, k):
        return self.minmax("max2", e, env, k)

    def b_isgenerator(self, e, env, k):
        # typed domain: the translated function is given a list (specs), never a generator object
        self.args_no_kw(e, 1)
        return self.expr(e.args[0], env, lambda c, t: k("false", BOOL) if isinstance(resolve(t), (TList, TRange, TTuple))
                         else self.unsup("isgenerator on " + resolve(t).lean()))

    def b_isinstance(self, e, env, k):
        return self.boolval(e, env, k)

    def b_bisect_right(self, e, env, k):
        self.args_no_kw(e, 2)

        def fin(vs):
            (l, tl), (x, tx) = vs
            tl = resolve(tl)
            if not isinstance(tl, TList):
                raise Unsupported("bisect_right on " + tl.lean())
            lc = coerce(l, tl, TList(TOpt(INT)))
            return self.as_int(x, tx, lambda v: self.bind("Py.bisectRight {} {}".format(lc, v), INT, k, "p"))
        return self.exprs(e.args, env, fin)

    def itertools(self, leanfn, e, env, k):
        self.args_no_kw(e, 2)

        def fin(vs):
            (l, tl), (n, tn) = vs
            # a negative `r` is a ValueError of itertools ("r must be non-negative"): Py.itertoolsR
            return self.as_list(l, tl, lambda ll, el: self.as_int(n, tn, lambda nv: self.bind(
                "Py.itertoolsR {}".format(nv), None, lambda r, _t: k(
                    "({} {} {})".format(leanfn, ll, r) if leanfn != "permsK" else "(permsK {} {})".format(r, ll),
                    TList(TList(el))), "r")))
        return self.exprs(e.args, env, fin)

    def b_combinations(self, e, env, k):
        if len(e.args) == 2 and not e.keywords and isinstance(e.args[1], ast.Constant) and e.args[1].value == 2:
            # combinations(l, 2): the pairs (unpacked by `for a, b in …`)
            return self.expr(e.args[0], env, lambda c, t: self.as_list(c, t, lambda l, el: k(
                "(Py.combos2 {})".format(l), TList(TTuple([el, el])))))
        return self.itertools("combos", e, env, k)

    def b_combinations_with_replacement(self, e, env, k):
        return self.itertools("combosRepl", e, env, k)

    def b_permutations(self, e, env, k):
        return self.itertools("permsK", e, env, k)

    def b_product(self, e, env, k):
        kws = {kw.arg: kw.value for kw in e.keywords}
        if set(kws) == {"repeat"} and len(e.args) == 1 and not isinstance(e.args[0], ast.Starred):
            def fin(vs):
                (l, tl), (n, tn) = vs
                return self.as_list(l, tl, lambda ll, el: self.as_int(n, tn, lambda nv: k(
                    "(productRep {} ({}).toNat)".format(ll, nv), TList(TList(el)))))
            return self.exprs([e.args[0], kws["repeat"]], env, fin)
        if not kws and len(e.args) == 2 and not any(isinstance(a, ast.Starred) for a in e.args):
            def fin2(vs):
                (a, ta), (b, tb) = vs
                return self.as_list(a, ta, lambda la, ea: self.as_list(b, tb, lambda lb, eb: k(
                    "(Py.product2 {} {})".format(la, lb), TList(TTuple([ea, eb])))))
            return self.exprs(list(e.args), env, fin2)
        if not kws and len(e.args) == 1 and isinstance(e.args[0], ast.Starred):
            def fin1(c, t):
                t = resolve(t)
                if isinstance(t, TList) and isinstance(resolve(t.elem), TList):
                    return k("(product {})".format(c), t)
                raise Unsupported("product(*x) with x : " + t.lean())
            return self.expr(e.args[0].value, env, fin1)
        raise Unsupported("product form " + src(e))

    # ------------------------------------------------------------ translated functions and methods
    def emit_call(self, fn, argcodes, k):
        if fn.unsupported is not None or fn.ret is None:
            raise Unsupported("callee {} is outside the subset".format(fn.lean))
        code = " ".join([fn.lean] + ["({})".format(a) if " " in a and not a.startswith("(") and not a.startswith("[") else a
                                    for a in argcodes])
        if fn.monadic:
            return self.bind(code, fn.ret, k, "r")
        return k("(" + code + ")", fn.ret)

    def call_function(self, fn, selfcode, e, env, k):
        """positional / keyword / starred arguments matched against fn.params (self excluded)"""
        params = list(fn.params)
        if any(kw.arg is None for kw in e.keywords):
            raise Unsupported("**kwargs")
        items = []          # (param index, ast)
        pos = list(e.args)
        if fn.vararg is not None:
            # f(*seq) or f(a, b, …) into the single sequence parameter
            if len(params) != 1:
                raise Unsupported("varargs next to other parameters")
            pname, pty = params[0]
            if len(pos) == 1 and isinstance(pos[0], ast.Starred):
                return self.expr(pos[0].value, env, lambda c, t: self.finish_call(fn, selfcode, [coerce(*self.seq_of(c, t), pty)], k))
            if any(isinstance(a, ast.Starred) for a in pos):
                raise Unsupported("mixed starred call")

            def fin(vs):
                el = resolve(pty).elem
                return self.finish_call(fn, selfcode, ["[" + ", ".join(coerce(c, t, el) for c, t in vs) + "]"], k)
            return self.exprs(pos, env, fin)
        if any(isinstance(a, ast.Starred) for a in pos):
            raise Unsupported("starred call of a fixed-arity function")
        if len(pos) > len(params):
            raise Unsupported("too many arguments: " + src(e))
        for i, a in enumerate(pos):
            items.append((i, a))
        names = [p[0] for p in params]
        for kw in e.keywords:
            if kw.arg not in names:
                raise Unsupported("unknown keyword " + kw.arg)
            items.append((names.index(kw.arg), kw.value))
        given = {i for i, _ in items}

        def fin(vs):
            codes = [None] * len(params)
            for (i, _a), (c, t) in zip(items, vs):
                pty = params[i][1]
                if isinstance(pty, (TErased, TEffectClass)):
                    codes[i] = None
                    continue
                codes[i] = coerce(c, t, pty)
            out = []
            for i, (pn, pty) in enumerate(params):
                if isinstance(pty, (TErased, TEffectClass)):
                    continue
                if codes[i] is None:
                    if i in given:
                        raise Unsupported("erased argument expected")
                    d = fn.defaults.get(pn)
                    if d is None:
                        raise Unsupported("missing argument {} in {}".format(pn, src(e)))
                    dc, dt = self.pure_expr(d, {})
                    codes[i] = coerce(dc, dt, pty)
                out.append(codes[i])
            # observer outcomes of the callee (label checks …): supplied by the caller's own observers
            for oname, oty, how in fn.observers:
                out.append(self.observer_for_call(fn, oname, oty, how, e, items, params))
            return self.finish_call(fn, selfcode, out, k)
        # erased arguments are not evaluated
        evald = [(i, a) for i, a in items if not isinstance(params[i][1], (TErased, TEffectClass))]
        skipped = [(i, a) for i, a in items if isinstance(params[i][1], (TErased, TEffectClass))]
        items = evald + skipped

        def fin2(vs):
            return fin(vs + [("()", ERASED)] * len(skipped))
        return self.exprs([a for _, a in evald], env, fin2)

    def seq_of(self, c, t):
        t = resolve(t)
        if isinstance(t, (TList, TRange, TTuple)):
            return c, t
        raise Unsupported("sequence expected, got " + t.lean())

    def finish_call(self, fn, selfcode, argcodes, k):
        return self.emit_call(fn, ([selfcode] if selfcode is not None else []) + argcodes, k)

    def observer_for_call(self, fn, oname, oty, how, e, items, params):
        """the callee has an abstract-outcome parameter (e.g. `labelfmt.format(1, 1)`): when the caller passes a
        constant label (or relies on the constant default) the outcome is computed here, at translation time"""
        kind, pname, call_args = how          # ("format", "labelfmt", [constants])
        names = [p[0] for p in params]
        idx = names.index(pname)
        given = [a for i, a in items if i == idx]
        node = given[0] if given else fn.defaults.get(pname)
        if isinstance(node, ast.Constant) and isinstance(node.value, str) and call_args is not None:
            try:
                node.value.format(*call_args)
                return "(Except.ok ())"
            except IndexError:
                return "(Except.error Err.indexError)"
            except KeyError:
                return "(Except.error Err.keyError)"
            except ValueError:
                return "(Except.error Err.valueError)"
        # pass our own observer of the same label through
        if isinstance(call_args, tuple) and call_args[0] == "star":
            # the starred sequence, in our own names
            sidx = names.index(call_args[1]) if call_args[1] in names else None
            snode = [a for i, a in items if i == sidx]
            if not snode or not isinstance(snode[0], ast.Name):
                raise Unsupported("label check over a sequence that is not a plain argument")
            call_args = ("star", snode[0].id)
        own = self.observer_param(kind, pname if not given else src(given[0]), call_args)
        return own

    def method_call(self, e, env, k):
        f = e.func
        recv = f.value
        if src(f) in getattr(self.reg, "identity_calls", ()) and e.args:
            return self.expr(e.args[0], env, k)      # e.g. Graph.normalize(G, 'G') on an object that is a graph already
        # Base.__init__(self, …) is handled at statement level; here: value-returning method calls
        if isinstance(recv, ast.Name) and recv.id == "self" and self.cls is not None and not self.in_init:
            fn = self.reg.method(self.cls, f.attr)
            if fn is None:
                raise Unsupported("method self.{} is not translated".format(f.attr))
            return self.call_function(fn, "self", e, env, k)

        ekey = self.effect_key(recv, env) if hasattr(self, "effect_key") else None
        if ekey is not None:
            # an observer of the effect object (its state is not changed): a value
            et = resolve(env[ekey][1])
            prim = self.reg.effects[et.name]["methods"].get(f.attr)
            if prim is None or prim.get("ret") is None:
                raise Unsupported("a state-changing call of the {} object inside an expression: {}".format(et.name, src(e)))
            params = [(p_[0], p_[1]) for p_ in prim["params"]]
            defaults = {p_[0]: p_[2] for p_ in prim["params"] if len(p_) > 2}

            def fin_e(codes, _given):
                call = " ".join([prim["lean"], env[ekey][0]] + codes)
                if prim.get("raises"):
                    return self.bind(call, prim["ret"], k, "o")
                return k("(" + call + ")", prim["ret"])
            return self.bind_args(params, defaults, e, env, fin_e)

        def with_recv(c, t):
            t = resolve(t)
            if isinstance(t, TObj):
                fn = self.reg.method(self.reg.classes[t.cls], f.attr)
                if fn is None:
                    raise Unsupported("method {}.{} is not translated".format(t.cls, f.attr))
                return self.call_function(fn, c, e, env, k)
            if isinstance(t, TAbs):
                ob = self.reg.abstracts[t.name].get(f.attr)
                if ob is None:
                    raise Unsupported("observer {}.{} is not declared".format(t.name, f.attr))
                ptys, rty, raises = ob
                self.args_no_kw(e, len(ptys))

                def fin(vs):
                    code = " ".join(["{}.{}".format(c, f.attr)] + [coerce(a, ta, pt) for (a, ta), pt in zip(vs, ptys)])
                    if raises:
                        return self.bind(code, rty, k, "o")
                    return k("(" + code + ")" if ptys else code, rty)
                return self.exprs(e.args, env, fin)
            if isinstance(t, TBuilder):
                ob = self.reg.builders[t.cls].get("observers", {}).get(f.attr)
                if ob is None or e.args or e.keywords:
                    raise Unsupported("method {} of a {} under construction".format(f.attr, t.cls))
                template, oty = ob
                return k(template.format(c=c), oty)
            if isinstance(t, (TList, TTuple, TRange)) and f.attr == "index":
                self.args_no_kw(e, 1)
                return self.as_list(c, t, lambda l, el: self.expr(e.args[0], env, lambda a, ta: self.bind(
                    "Py.indexOf {} {}".format(l, coerce(a, ta, el)), INT, k, "p")))
            raise Unsupported("method call {} on {}".format(f.attr, t.lean()))
        return self.expr(recv, env, with_recv)
