"""Expression half of tools/py2lean.py: Python-lite expressions → Lean terms, in continuation-passing
style so that sub-expressions that can raise are bound (`>>=`) in Python's evaluation order."""
import ast

from py2lean_types import (Unsupported, Impure, Ty, TInt, TBool, TStr, TNone, TRange, TErased, TList, TOpt, TTuple,
                           TDict, TObj, TAbs, TExc, TUnion, TVar, THet, TMaybe, TEffect, INT, BOOL, STR, NONE, RANGE, ERASED,
                           resolve, unify, join, coerce, proj, iter_elem)

EXC = {"ValueError": ".valueError", "TypeError": ".typeError", "IndexError": ".indexError",
       "ZeroDivisionError": ".zeroDivision", "StopIteration": ".stopIteration", "KeyError": ".keyError",
       "AssertionError": ".assertion", "RuntimeError": ".runtimeError"}

CMP = {ast.Lt: "<", ast.LtE: "≤", ast.Gt: ">", ast.GtE: "≥", ast.Eq: "=", ast.NotEq: "≠"}


def src(node):
    try:
        return ast.unparse(node)
    except Exception:
        return "?"


def lstr(s):
    out = s.replace("\\", "\\\\").replace('"', '\\"').replace("\n", "\\n").replace("\r", "\\r").replace("\t", "\\t")
    return '"' + out + '"'


def indent(code, n=2):
    pad = " " * n
    return "\n".join(pad + l if l else l for l in code.split("\n"))


class ExprMixin:
    """needs: self.fresh(), self.raised (counter), self.pure_mode, self.reg (global registry),
    self.cls (ClassInfo or None), self.in_init"""

    # ------------------------------------------------------------ plumbing
    def bind(self, code, ty, k, hint="t"):
        """`code : Except Err ty`; continue with its value"""
        if self.pure_mode:
            raise Impure()
        self.raised += 1
        tmp = self.fresh(hint)
        return "({}) >>= fun {} =>\n{}".format(code, tmp, k(tmp, ty))

    def pure_expr(self, e, env):
        """(code, ty) of an expression that needs no bind; raises Impure otherwise"""
        saved = self.pure_mode
        self.pure_mode = True
        try:
            box = []

            def k(c, t):
                box.append((c, t))
                return "<<pure>>"
            self.expr(e, env, k)
            if len(box) != 1:
                raise Unsupported("expression did not produce exactly one value: " + src(e))
            return box[0]
        finally:
            self.pure_mode = saved

    def exprs(self, es, env, k, acc=None):
        """evaluate a list of expressions left to right; k(list of (code, ty))"""
        acc = acc or []
        if not es:
            return k(acc)
        return self.expr(es[0], env, lambda c, t: self.exprs(es[1:], env, k, acc + [(c, t)]))

    def as_int(self, c, t, k):
        """use a value as an integer (None → TypeError)"""
        t = resolve(t)
        if isinstance(t, TVar):
            unify(t, INT)
            return k(c)
        if isinstance(t, TInt):
            return k(c)
        if isinstance(t, TBool):
            return k("(if {} then (1 : Int) else 0)".format(c))
        if isinstance(t, TOpt) and isinstance(resolve(t.elem), TInt):
            return self.bind("Py.unNone {}".format(c), INT, lambda v, _t: k(v), "v")
        if isinstance(t, TUnion) and isinstance(resolve(t.a), TInt):
            # scalar-or-sequence used as a number: a sequence is a TypeError
            return self.bind("(match {} with | .inl v => Except.ok v | .inr _ => Except.error Err.typeError)".format(c),
                             INT, lambda v, _t: k(v), "v")
        raise Unsupported("integer expected, got " + t.lean())

    def as_list(self, c, t, k):
        """use a value as a sequence: k(code, elem type)"""
        t = resolve(t)
        if isinstance(t, TOpt):
            return self.bind("Py.unNone {}".format(c), t.elem, lambda v, tv: self.as_list(v, tv, k), "v")
        if isinstance(t, TUnion):
            # scalar-or-sequence: a scalar is not iterable (TypeError)
            tb = resolve(t.b)
            return self.bind("(match {} with | .inr l => Except.ok l | .inl _ => Except.error Err.typeError)".format(c),
                             tb, lambda v, tv: self.as_list(v, tv, k), "l")
        el, view = iter_elem(t)
        return k(view(c), el)

    # ------------------------------------------------------------ expressions
    def expr(self, e, env, k):
        m = getattr(self, "e_" + type(e).__name__, None)
        if m is None:
            raise Unsupported("expression " + type(e).__name__ + ": " + src(e))
        return m(e, env, k)

    def e_Constant(self, e, env, k):
        v = e.value
        if v is None:
            return k("()", NONE)
        if isinstance(v, bool):
            return k("true" if v else "false", BOOL)
        if isinstance(v, int):
            return k("({} : Int)".format(v), INT)
        if isinstance(v, str):
            return k(lstr(v), STR)
        raise Unsupported("constant " + repr(v))

    def e_Name(self, e, env, k):
        if e.id in self.effect_alias and self.effect_key(e, env) is not None:
            return k(*env[self.effect_key(e, env)])
        if e.id in env:
            c, t = env[e.id]
            if isinstance(resolve(t), TMaybe):
                return self.bind("Py.bound {}".format(c), resolve(t).elem, k, "v")
            return k(c, t)
        raise Unsupported("unknown name " + e.id)

    def e_Attribute(self, e, env, k):
        if self.effect_key(e, env) is not None:
            return k(*env[self.effect_key(e, env)])
        key = src(e)
        if key in env:                       # self.x inside __init__
            return k(*env[key])
        if isinstance(e.value, ast.Name) and e.value.id == "self" and self.cls is not None and not self.in_init:
            f = self.cls.fields.get(e.attr)
            if f is None:
                raise Unsupported("unknown attribute self." + e.attr)
            return k("self.{}".format(e.attr), f)
        # attribute of an object-valued expression
        def cont(c, t):
            t = resolve(t)
            if isinstance(t, TObj):
                f = self.reg.classes[t.cls].fields.get(e.attr)
                if f is None:
                    raise Unsupported("unknown attribute {}.{}".format(t.cls, e.attr))
                return k("{}.{}".format(c, e.attr), f)
            raise Unsupported("attribute of " + t.lean())
        return self.expr(e.value, env, cont)

    def e_Tuple(self, e, env, k):
        if any(isinstance(x, ast.Starred) for x in e.elts):
            raise Unsupported("starred tuple")
        return self.exprs(e.elts, env, lambda vs: k(
            "(" + ", ".join(c for c, _ in vs) + ")" if len(vs) != 1 else vs[0][0],
            TTuple([t for _, t in vs])))

    def e_List(self, e, env, k):
        def fin(vs):
            if not vs:
                tv = TVar()
                return k("([] : List {})".format(TyRef(tv)), TList(tv))
            # (a list of literals some of whose entries are `group(i, j)` values keeps them as scalar-or-sequence entries:
            # what a list among the literals does is decided where the list is used — PyF.lits for the checked builders)
            t = vs[0][1]
            for _, t2 in vs[1:]:
                t = join(t, t2)
                if t is None:
                    raise Unsupported("heterogeneous list " + src(e))
            return k("[" + ", ".join(coerce(c, tc, t) for c, tc in vs) + "]", TList(t))
        return self.exprs(e.elts, env, fin)

    def e_UnaryOp(self, e, env, k):
        if isinstance(e.op, ast.USub):
            return self.expr(e.operand, env, lambda c, t: self.as_int(c, t, lambda v: k("(-{})".format(v), INT)))
        if isinstance(e.op, ast.UAdd):      # +x: the integer itself (a list operand is a TypeError, as for -x)
            return self.expr(e.operand, env, lambda c, t: self.as_int(c, t, lambda v: k(v, INT)))
        if isinstance(e.op, ast.Not):
            return self.boolval(e, env, k)
        raise Unsupported("unary " + src(e))

    def e_BinOp(self, e, env, k):
        # prefix + [a, b]: a record-like list (homogeneous prefix, fixed tail)
        if isinstance(e.op, ast.Add) and isinstance(e.right, ast.List) and e.right.elts \
                and not any(isinstance(x, ast.Starred) for x in e.right.elts):
            def het(vs):
                (l, tl), tails = vs[0], vs[1:]
                tl = resolve(tl)
                if not isinstance(tl, TList):
                    raise Unsupported("operator " + src(e))
                j = tl.elem
                ok = True
                for _, t in tails:
                    j = join(j, t) if j is not None else None
                if j is not None:
                    return k("({} ++ [{}])".format(coerce(l, tl, TList(j)), ", ".join(coerce(c, t, j) for c, t in tails)), TList(j))
                if isinstance(resolve(tl.elem), TInt) and all(
                        isinstance(resolve(t), TInt) or (isinstance(resolve(t), TUnion) and isinstance(resolve(resolve(t).a), TInt))
                        for _, t in tails):
                    # literals: an entry computed by `group(i)` must be the scalar
                    def ints_(i, acc):
                        if i == len(tails):
                            return k("({} ++ [{}])".format(l, ", ".join(acc)), TList(INT))
                        return self.as_int(tails[i][0], tails[i][1], lambda v: ints_(i + 1, acc + [v]))
                    return ints_(0, [])
                return k("(" + ", ".join([l] + [c for c, _ in tails]) + ")", THet(tl.elem, [t for _, t in tails]))
            return self.exprs([e.left] + list(e.right.elts), env, het)

        def fin(vs):
            (a, ta), (b, tb) = vs
            ta, tb = resolve(ta), resolve(tb)
            op = type(e.op)
            if op is ast.Add and isinstance(ta, TList) and isinstance(tb, TList):
                j = join(ta, tb)
                if j is None:
                    raise Unsupported("list + list of different types")
                return k("({} ++ {})".format(coerce(a, ta, j), coerce(b, tb, j)), j)
            if op is ast.Mult and isinstance(ta, TList) and isinstance(e.left, ast.List) and len(e.left.elts) == 1 \
                    and a.startswith("[") and a.endswith("]"):
                return self.as_int(b, tb, lambda n: k(
                    "(List.replicate ({}).toNat {})".format(n, a[1:-1]), ta))
            if op is ast.Mult and isinstance(ta, TList):
                return self.as_int(b, tb, lambda n: k(
                    "(List.flatten (List.replicate ({}).toNat {}))".format(n, a), ta))
            if op in (ast.Add, ast.Sub, ast.Mult):
                sym = {ast.Add: "+", ast.Sub: "-", ast.Mult: "*"}[op]
                return self.as_int(a, ta, lambda x: self.as_int(b, tb, lambda y: k("({} {} {})".format(x, sym, y), INT)))
            if op is ast.FloorDiv:
                return self.as_int(a, ta, lambda x: self.as_int(b, tb, lambda y: self.bind(
                    "Py.floordiv {} {}".format(x, y), INT, k, "q")))
            if op is ast.Mod:
                return self.as_int(a, ta, lambda x: self.as_int(b, tb, lambda y: self.bind(
                    "Py.mod {} {}".format(x, y), INT, k, "r")))
            if op is ast.Pow:
                return self.as_int(a, ta, lambda x: self.as_int(b, tb, lambda y: k("(Py.pow {} {})".format(x, y), INT)))
            raise Unsupported("operator " + src(e))
        return self.exprs([e.left, e.right], env, fin)

    def e_IfExp(self, e, env, k):
        try:
            c = self.pure_prop(e.test, env)
            (a, ta), (b, tb) = self.pure_expr(e.body, env), self.pure_expr(e.orelse, env)
            j = join(ta, tb)
            if j is None:
                raise Unsupported("branches of different types: " + src(e))
            return k("(if {} then {} else {})".format(c, coerce(a, ta, j), coerce(b, tb, j)), j)
        except Impure:
            if self.pure_mode:
                raise
        # a branch can raise: each branch is a monadic computation, the value is bound
        box = {}

        def branch(node, tag):
            def kk(c2, t2):
                box[tag] = t2
                return "«IFX{}»".format(tag) + "⟨" + c2 + "⟩"
            return self.expr(node, env, kk)
        a = branch(e.body, "a")
        b = branch(e.orelse, "b")
        j = join(box["a"], box["b"])
        if j is None:
            raise Unsupported("branches of different types: " + src(e))
        import re

        def close(code, tag):
            return re.sub("«IFX" + tag + "»⟨(.*?)⟩", lambda m: "Except.ok " + coerce(m.group(1), box[tag], j), code, flags=re.S)
        return self.cond(e.test, env, lambda: close(a, "a"), lambda: close(b, "b")) if False else \
            self.bind("if {} then\n{}\nelse\n{}".format(self.pure_prop(e.test, env), indent(close(a, "a")), indent(close(b, "b"))),
                      j, k, "v")

    def e_Compare(self, e, env, k):
        return self.boolval(e, env, k)

    def e_BoolOp(self, e, env, k):
        return self.boolval(e, env, k)

    def boolval(self, e, env, k):
        """a condition used as a value"""
        try:
            p = self.pure_prop(e, env)
            return k("(decide {})".format(p), BOOL)
        except Impure:
            if self.pure_mode:
                raise
        return self.bind(self.cond_value(e, env), BOOL, k, "c")

    # ------------------------------------------------------------ conditions
    def pure_prop(self, e, env):
        saved = self.pure_mode
        self.pure_mode = True
        try:
            return self.prop(e, env)
        finally:
            self.pure_mode = saved

    def prop(self, e, env):
        """decidable Lean proposition for a side-effect-free condition (pure mode only)"""
        if src(e) in self.assume_false:
            return "False"           # declared in the specs (typed domain), see notes/translator.md
        if isinstance(e, ast.BoolOp):
            sym = " ∧ " if isinstance(e.op, ast.And) else " ∨ "
            return "(" + sym.join(self.prop(v, env) for v in e.values) + ")"
        if isinstance(e, ast.UnaryOp) and isinstance(e.op, ast.Not):
            return "(¬ {})".format(self.prop(e.operand, env))
        if isinstance(e, ast.Compare):
            parts = []
            left = self.pure_expr(e.left, env)
            for op, right in zip(e.ops, e.comparators):
                r = self.pure_expr(right, env)
                parts.append(self.compare(op, left, r, e))
                left = r
            return parts[0] if len(parts) == 1 else "(" + " ∧ ".join(parts) + ")"
        if isinstance(e, ast.Call) and isinstance(e.func, ast.Name) and e.func.id == "isinstance":
            return self.isinstance_prop(e, env)
        c, t = self.pure_expr(e, env)
        t = resolve(t)
        if isinstance(t, TBool):
            return "({} = true)".format(c)
        raise Unsupported("condition of type {}: {}".format(t.lean(), src(e)))

    def isinstance_prop(self, e, env):
        if len(e.args) != 2:
            raise Unsupported(src(e))
        c, t = self.pure_expr(e.args[0], env)
        t = resolve(t)
        cls = src(e.args[1])
        if cls == "int" and isinstance(t, (TInt, TBool)):
            return "True"
        if isinstance(t, TAbs) and cls in self.reg.abs_isinstance.get(t.name, ()):
            return "True"
        if isinstance(t, TObj):
            # static dispatch: the class of the object is its declared type
            wanted = [src(x) for x in e.args[1].elts] if isinstance(e.args[1], ast.Tuple) else [cls]
            mine = [n.name for n in self.reg.mro(t.cls)] or [t.cls]
            return "True" if any(w in mine for w in wanted) else "False"
        if cls in ("numbers.Integral", "Integral") and isinstance(t, (TInt, TBool)):
            return "True"
        raise Unsupported("isinstance test outside the typed domain: " + src(e))

    def compare(self, op, left, right, whole):
        (a, ta), (b, tb) = left, right
        ta, tb = resolve(ta), resolve(tb)
        if isinstance(op, (ast.Is, ast.IsNot, ast.Eq, ast.NotEq)) and (isinstance(tb, TNone) or isinstance(ta, TNone)):
            if isinstance(op, (ast.Eq, ast.NotEq)) and not (isinstance(ta, (TNone, TOpt)) and isinstance(tb, (TNone, TOpt))):
                raise Unsupported("== None on a non-optional: " + src(whole))
            x, tx = (a, ta) if isinstance(tb, TNone) else (b, tb)
            neg = isinstance(op, (ast.IsNot, ast.NotEq))
            if isinstance(tx, TNone):
                return "False" if neg else "True"
            if isinstance(tx, TOpt):
                return "({} {} none)".format(x, "≠" if neg else "=")
            return "True" if neg else "False"
        if isinstance(op, (ast.In, ast.NotIn)):
            neg = isinstance(op, ast.NotIn)
            if isinstance(tb, TObj):
                ci = self.reg.classes[tb.cls]
                fn = self.reg.method(ci, "__contains__")
                if fn is None or fn.monadic:
                    raise Unsupported("`in` on an object without a pure __contains__")
                p = "({} {} {} = true)".format(fn.lean, b, coerce(a, ta, fn.params[0][1]))
            elif isinstance(tb, TRange):
                if not isinstance(ta, TInt):
                    raise Unsupported("`in range` on a non-integer")
                p = "(Py.Range.contains {} {} = true)".format(b, a)
            elif isinstance(tb, TDict):
                d, key = self.dict_probe(b, tb, a, ta)
                p = "(Py.dictHas {} {} = true)".format(d, key)
            elif isinstance(tb, (TList, TTuple)):
                el, view = iter_elem(tb)
                j = join(ta, el)
                if j is None or j != resolve(el):
                    raise Unsupported("`in` between {} and {}".format(ta.lean(), tb.lean()))
                p = "({} ∈ {})".format(coerce(a, ta, j), view(b))
            else:
                raise Unsupported("`in` on " + tb.lean())
            return "(¬ {})".format(p) if neg else p
        sym = CMP.get(type(op))
        if sym is None:
            raise Unsupported("comparison " + src(whole))
        if isinstance(op, (ast.Eq, ast.NotEq)) and (isinstance(ta, TUnion) != isinstance(tb, TUnion)):
            (u, tu), (x, tx) = ((a, ta), (b, tb)) if isinstance(ta, TUnion) else ((b, tb), (a, ta))
            if join(tu.a, tx) is not None and not isinstance(tx, (TList, TRange, TTuple)):
                return "({} {} Sum.inl {})".format(u, sym, coerce(x, tx, tu.a))
            if join(tu.b, tx) is not None:
                return "({} {} Sum.inr {})".format(u, sym, coerce(x, tx, tu.b))
            raise Unsupported("== between {} and {}".format(ta.lean(), tb.lean()))
        if isinstance(op, (ast.Eq, ast.NotEq)):
            j = join(ta, tb)
            if j is None or isinstance(j, (TAbs, TObj, TErased)):
                raise Unsupported("== between {} and {}".format(ta.lean(), tb.lean()))
            return "({} {} {})".format(coerce(a, ta, j), sym, coerce(b, tb, j))
        # ordering: integers only (None would be a TypeError: needs a bind)
        xs = []
        for c, t in ((a, ta), (b, tb)):
            if isinstance(t, TVar):
                unify(t, INT)
                t = INT
            if isinstance(t, TInt):
                xs.append(c)
            elif isinstance(t, TOpt) and isinstance(resolve(t.elem), TInt):
                raise Impure()
            else:
                raise Unsupported("ordering on {}: {}".format(t.lean(), src(whole)))
        return "({} {} {})".format(xs[0], sym, xs[1])

    def dict_probe(self, d, td, key, tkey):
        """(dictionary, key) for a lookup; a key of a wider type (a tuple that may contain None) is compared in that
        type: the stored keys are seen in it too"""
        td, tkey = resolve(td), resolve(tkey)
        j = join(td.k, tkey)
        if j is None:
            raise Unsupported("dictionary lookup with a key of another type")
        j = resolve(j)
        if j == resolve(td.k):
            return d, coerce(key, tkey, td.k)
        return "(List.map (fun kv => ({}, kv.2)) {})".format(coerce("kv.1", td.k, j), d), coerce(key, tkey, j)

    def cond(self, e, env, kt, kf):
        """branch on a condition that may need binds (short-circuit order kept).
        kt(env')/kf(env') give the code of the two continuations; env' records that an optional variable
        which was compared (ordering) is not None from there on."""
        try:
            p = self.pure_prop(e, env)
            return "if {} then\n{}\nelse\n{}".format(p, indent(kt(env)), indent(kf(env)))
        except Impure:
            if self.pure_mode:
                raise
        if isinstance(e, ast.UnaryOp) and isinstance(e.op, ast.Not):
            return self.cond(e.operand, env, kf, kt)
        if isinstance(e, ast.BoolOp):
            # bind the truth value (no duplication of the continuations)
            def chain(vals):
                if len(vals) == 1:
                    return self.cond_value(vals[0], env)
                first = self.cond_value(vals[0], env)
                rest = chain(vals[1:])
                if isinstance(e.op, ast.And):
                    return "({}) >>= fun b => if b = true then ({}) else Except.ok false".format(first, rest)
                return "({}) >>= fun b => if b = true then Except.ok true else ({})".format(first, rest)
            code = chain(e.values)
            return self.bind(code, BOOL, lambda b, _t: "if {} = true then\n{}\nelse\n{}".format(
                b, indent(kt(env)), indent(kf(env))), "c")
        if isinstance(e, ast.Compare):
            # operands first (left to right), then the test; `None` operands of an ordering raise TypeError
            operands = [e.left] + list(e.comparators)
            if len(operands) > 2:
                # a < b < c: c is evaluated only if a < b; safe to hoist only when it is pure
                for o in operands[2:]:
                    self.pure_expr(o, env)

            def fin(vs):
                def unwrap(i, acc, env2):
                    if i == len(vs):
                        parts = [self.compare(op, acc[j], acc[j + 1], e) for j, op in enumerate(e.ops)]
                        p = parts[0] if len(parts) == 1 else "(" + " ∧ ".join(parts) + ")"
                        return "if {} then\n{}\nelse\n{}".format(p, indent(kt(env2)), indent(kf(env2)))
                    c, t = vs[i]
                    t = resolve(t)
                    ordering = any(not isinstance(op, (ast.Is, ast.IsNot, ast.Eq, ast.NotEq, ast.In, ast.NotIn))
                                   for op in e.ops[max(0, i - 1):i + 1])
                    if ordering and isinstance(t, TOpt) and isinstance(resolve(t.elem), TInt):
                        def after(v, tv):
                            env3 = env2
                            if isinstance(operands[i], ast.Name) and operands[i].id in env2:
                                env3 = dict(env2)
                                env3[operands[i].id] = (v, tv)
                            return unwrap(i + 1, acc + [(v, tv)], env3)
                        return self.bind("Py.unNone {}".format(c), INT, after, "v")
                    return unwrap(i + 1, acc + [(c, t)], env2)
                return unwrap(0, [], env)
            return self.exprs(operands, env, fin)
        return self.expr(e, env, lambda c, t: "if {} = true then\n{}\nelse\n{}".format(c, indent(kt(env)), indent(kf(env))))

    def cond_value(self, e, env):
        """monadic Bool code (`Except Err Bool`) of a condition"""
        return self.cond(e, env, lambda _e: "Except.ok true", lambda _e: "Except.ok false")


class TyRef:
    """late-bound rendering of a type variable inside generated text"""
    registry = {}

    def __init__(self, tv):
        self.key = "«TY{}»".format(len(TyRef.registry))
        TyRef.registry[self.key] = tv

    def __format__(self, spec):
        return self.key

    @staticmethod
    def subst(text):
        for key, tv in TyRef.registry.items():
            if key in text:
                text = text.replace(key, tv.lean())
        return text
